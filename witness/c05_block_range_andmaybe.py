# Known finding (C05/C12): AndMaybeMatcher.skip_to_quality applies a child's CURRENT-BLOCK quality bound to postings of
# that child outside the current block, so a limited search can pass over / under-score a better document.
# Found from the stuck proof of AndMaybeMatcher.skip_to_quality ("no entry scoring > q is passed over"); witness by search.
import sys
from whoosh import fields, query, scoring
from whoosh.codec.whoosh3 import W3Codec
from whoosh.filedb.filestore import RamStorage
docs = [(5, 0), (9, 1), (2, 1), (9, 7), (2, 1), (9, 3), (0, 0), (5, 0), (0, 0), (0, 0), (2, 0), (1, 1), (2, 3), (9, 1), (1, 1), (1, 0), (1, 0), (9, 3), (9, 7)]
ix = RamStorage().create_index(fields.Schema(a=fields.TEXT, b=fields.TEXT))
w = ix.writer(codec=W3Codec(blocklimit=3))
for fa, fb in docs: w.add_document(a="xx " * fa + "zz", b="yy " * fb + "zz")
w.commit()
with ix.searcher(weighting=scoring.Frequency()) as s:
    q = query.AndMaybe(query.Term("a", "xx"), query.Term("b", "yy"))
    full = [(h.docnum, h.score) for h in s.search(q, limit=None)]
    top = [(h.docnum, h.score) for h in s.search(q, limit=2)]
print("limit=2:", top, " exhaustive[:2]:", full[:2])
sys.exit(1 if top != full[:2] else 0)
