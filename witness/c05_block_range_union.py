# Known finding (C05/C12): UnionMatcher.skip_to_quality applies a child's CURRENT-BLOCK quality bound to postings of
# that child outside the current block, so a limited search can pass over / under-score a better document.
# Found from the stuck proof of UnionMatcher.skip_to_quality ("no entry scoring > q is passed over"); witness by search.
import sys
from whoosh import fields, query, scoring
from whoosh.codec.whoosh3 import W3Codec
from whoosh.filedb.filestore import RamStorage
docs = [(2, 1), (0, 0), (2, 0), (2, 0), (2, 1), (0, 7), (2, 3), (0, 1), (0, 1), (0, 0), (2, 7), (1, 3), (0, 1), (0, 7), (1, 1), (2, 1)]
ix = RamStorage().create_index(fields.Schema(a=fields.TEXT, b=fields.TEXT))
w = ix.writer(codec=W3Codec(blocklimit=3))
for fa, fb in docs: w.add_document(a="xx " * fa + "zz", b="yy " * fb + "zz")
w.commit()
with ix.searcher(weighting=scoring.Frequency()) as s:
    q = query.Or([query.Term("a", "xx"), query.Term("b", "yy")])
    full = [(h.docnum, h.score) for h in s.search(q, limit=None)]
    top = [(h.docnum, h.score) for h in s.search(q, limit=1)]
print("limit=1:", top, " exhaustive[:1]:", full[:1])
sys.exit(1 if top != full[:1] else 0)
