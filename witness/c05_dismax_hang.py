# Existing violation: limited search never terminates (DisjunctionMaxMatcher.skip_to_quality spins when
# both children are compound matchers whose block quality equals the current k-th best score).
import signal, sys, warnings
warnings.simplefilter("ignore")
from whoosh import fields, query, scoring
from whoosh.filedb.filestore import RamStorage
ix = RamStorage().create_index(fields.Schema(id=fields.ID(stored=True), body=fields.TEXT))
w = ix.writer()
w.add_document(id="0", body="xx")
w.add_document(id="1", body="xx xx yy yy zz zz ww ww")
for i in range(2, 10):
    w.add_document(id=str(i), body="xx yy zz ww")
w.commit()
T = lambda t: query.Term("body", t)
q = query.DisjunctionMax([query.Or([T("xx"), T("yy")]), query.Or([T("zz"), T("ww")])])
def boom(*a):
    print("HANG: search(limit=1) did not finish in 5s"); sys.exit(1)
signal.signal(signal.SIGALRM, boom); signal.alarm(5)
with ix.searcher(weighting=scoring.Frequency()) as s:
    print("full", [(h["id"], h.score) for h in s.search(q, limit=None)][:3])
    print("k=1 ", [(h["id"], h.score) for h in s.search(q, limit=1)])
