# Known finding (C05/C12): WrappingMatcher.replace passes the threshold to the (unboosted) child unscaled, so a
# boosted compound query under a limit prunes postings that could still win.  Not repaired: the repository's own
# tests/test_quality.py::test_replacements asserts the unscaled behaviour (the suite must pass unedited).
import sys
from whoosh import fields, query, scoring
from whoosh.filedb.filestore import RamStorage
ix = RamStorage().create_index(fields.Schema(t=fields.TEXT))
w = ix.writer()
for i in range(3000): w.add_document(t="aa " * (1 + i % 7) + ("bb" if i % 3 else ""))
w.commit()
with ix.searcher(weighting=scoring.Frequency()) as s:
    q = query.And([query.Term("t", "aa"), query.Or([query.Term("t", "bb"), query.Term("t", "aa")], boost=3.0)])
    full = [(h.docnum, h.score) for h in s.search(q, limit=None)]
    top = [(h.docnum, h.score) for h in s.search(q, limit=5)]
print("limit=5:", top); print("exhaustive[:5]:", full[:5])
sys.exit(1 if top != full[:5] else 0)
