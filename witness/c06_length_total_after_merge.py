# C06: per-document field lengths are stored as one lossy byte; a merge re-adds the DECODED lengths, so the total field length
# (and with it the average length BM25F uses) depends on whether the documents were merged.
import sys
from whoosh import fields, scoring, query
from whoosh.filedb.filestore import RamStorage
def build(optimize):
    ix = RamStorage().create_index(fields.Schema(k=fields.ID(stored=True), t=fields.TEXT))
    for i in range(3):
        w = ix.writer()
        w.add_document(k=u"%d" % i, t=u" ".join([u"alfa"] * (300 + 7 * i) + [u"bravo"]))
        w.commit(merge=False)
    if optimize:
        ix.writer().commit(optimize=True)
    with ix.searcher(weighting=scoring.BM25F()) as s:
        return s.reader().field_length("t"), [round(h.score, 9) for h in s.search(query.Term("t", u"bravo"), limit=None)]
a, b = build(False), build(True)
print("three segments:", a); print("optimized:     ", b)
sys.exit(1 if a != b else 0)
