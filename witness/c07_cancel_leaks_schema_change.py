# C07: a field added through a writer that is then cancelled must not become part of the index; the Index object that
# created the writer shares its Schema object with it, so the next commit through the same Index object persists the field.
import sys
from whoosh import fields
from whoosh.filedb.filestore import RamStorage
st = RamStorage()
ix = st.create_index(fields.Schema(k=fields.ID(stored=True)))
w = ix.writer(); w.add_field("extra", fields.ID(stored=True)); w.cancel()
w = ix.writer(); w.add_document(k=u"a"); w.commit()
names = sorted(st.open_index().schema.names())
print("schema after cancel + an unrelated commit:", names)
sys.exit(1 if names != ["k"] else 0)
