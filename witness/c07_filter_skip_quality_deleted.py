# FilterMatcher inherits WrappingMatcher.skip_to_quality, which moves the child to the start of the next
# qualifying block without re-applying the filter: a DELETED document at a block start is returned by a limited
# search (obligation WrappingMatcher.skip_to_quality@FilterMatcher-exclude/ensures[#0] minv(self)).
import sys
from whoosh import fields, query, scoring
from whoosh.codec.whoosh3 import W3Codec
from whoosh.filedb.filestore import RamStorage
ix = RamStorage().create_index(fields.Schema(k=fields.ID(stored=True), t=fields.TEXT))
w = ix.writer(codec=W3Codec(blocklimit=4))
tfs = {3: 3, 8: 9, 20: 2}
for i in range(24):
    w.add_document(k=str(i), t="aa " * tfs.get(i, 1))
w.commit()
w = ix.writer(); w.delete_by_term("k", "8"); w.commit(merge=False)
with ix.searcher(weighting=scoring.Frequency()) as s:
    q = query.Term("t", "aa")
    full = [(h["k"], h.score) for h in s.search(q, limit=None)]
    top = [(h["k"], h.score) for h in s.search(q, limit=2)]
print("deleted: k=8; limit=2 ->", top, "; exhaustive[:2] ->", full[:2])
sys.exit(1 if top != full[:2] or any(k == "8" for k, _ in top) else 0)
