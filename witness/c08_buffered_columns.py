# C08: documents still buffered in a BufferedWriter have no readable column values (the in-memory codec only finishes its
# column files on close), so the writer's own searcher cannot read or sort by a sortable field.
import sys
from whoosh import fields, query
from whoosh.filedb.filestore import RamStorage
from whoosh.writing import BufferedWriter
ix = RamStorage().create_index(fields.Schema(k=fields.ID(stored=True), n=fields.NUMERIC(sortable=True)))
w = BufferedWriter(ix, period=None, limit=100)
w.add_document(k=u"a", n=7); w.add_document(k=u"b", n=5)
rc = 0
try:
    with w.searcher() as s:
        got = [h["k"] for h in s.search(query.Every(), sortedby="n", limit=None)]
        print("sorted by n:", got)
        if got != ["b", "a"]:
            rc = 1
except Exception as e:
    print("sorting buffered documents raised %s: %s" % (type(e).__name__, e)); rc = 1
finally:
    w.close()
sys.exit(rc)
