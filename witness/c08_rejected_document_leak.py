# Known finding (C08/C10): SegmentWriter.add_document adds each field's postings to the pool (and vectors, column
# values, length statistics to the per-document writer) while it walks the fields; when a later field raises
# (here: a non-numeric value for a NUMERIC field) only perdocwriter.cancel_doc() runs, the document number is reused,
# and everything already emitted is attached to the NEXT document.
import sys
from whoosh import fields, query
from whoosh.filedb.filestore import RamStorage
ix = RamStorage().create_index(fields.Schema(id=fields.ID(stored=True), body=fields.TEXT(stored=True), num=fields.NUMERIC(stored=True)))
w = ix.writer()
w.add_document(id="first", body="alfa", num=1)
try:
    w.add_document(id="rejected", body="secret", num="not-a-number")
except ValueError:
    pass
w.add_document(id="second", body="bravo", num=2)
w.commit()
with ix.searcher() as s:
    hits = [h["id"] for h in s.search(query.Term("body", "secret"), limit=None)]
print("documents matching the rejected document's word 'secret':", hits, "(expected none)")
sys.exit(1 if hits else 0)
