# C10: the weight of a term in the posting list includes the document/field boost, the weight of the same term in the
# document's term vector does not.
import sys
from whoosh import fields
from whoosh.filedb.filestore import RamStorage
ix = RamStorage().create_index(fields.Schema(t=fields.TEXT(vector=True)))
w = ix.writer(); w.add_document(t=u"alfa alfa bravo", _t_boost=3.0); w.commit()
with ix.reader() as r:
    m = r.postings("t", u"alfa"); pw = m.weight()
    v = r.vector("t", 0 if True else None) if False else r.vector(0, "t")
    vw = None
    while v.is_active():
        if v.id() == u"alfa" or v.id() == b"alfa":
            vw = v.weight()
        v.next()
print("posting weight", pw, "vector weight", vw)
sys.exit(1 if pw != vw else 0)
