# C12/C11: the binary matchers re-read block_quality() of a child right after skipping it, also when that skip exhausted the
# child; MultiMatcher (the top-level term matcher over several segments) raises IndexError there instead of answering.
import sys
from whoosh import fields, query
from whoosh.filedb.filestore import RamStorage
ix = RamStorage().create_index(fields.Schema(t=fields.TEXT))
for text in (u"alfa bravo", u"alfa", u"bravo alfa alfa"):
    w = ix.writer(); w.add_document(t=text); w.commit(merge=False)
with ix.searcher() as s:
    m = query.Or([query.Term("t", u"alfa"), query.Term("t", u"bravo")]).matcher(s, s.context())
    try:
        m.skip_to_quality(100.0)
        print("skipped to", m.id() if m.is_active() else None); sys.exit(0)
    except IndexError as e:
        print("Or over two segments, top-level matcher: skip_to_quality(100.0) raised IndexError:", e); sys.exit(1)
