# Known findings (C12/C05): weighting models that claim quality support although their bounds are not upper
# bounds: DFree (scores can be negative, block bound 0), PL2 (not monotone in weight/length), ReverseWeighting
# (negated bound is a LOWER bound).  A limited search then differs from the exhaustive ranking.
import sys, random
from whoosh import fields, query, scoring
from whoosh.filedb.filestore import RamStorage
random.seed(1)
ix = RamStorage().create_index(fields.Schema(a=fields.TEXT, b=fields.TEXT))
w = ix.writer()
for i in range(1000):
    w.add_document(a=u" ".join(random.choice([u"xx", u"yy", u"zz", u"ww"]) for _ in range(random.randint(1, 30))),
                   b=u" ".join(random.choice([u"pp", u"qq"]) for _ in range(random.randint(1, 5))))
w.commit()
which = sys.argv[1] if len(sys.argv) > 1 else "all"
bad = []
for name, wm in [("reverse", scoring.ReverseWeighting(scoring.BM25F())), ("pl2", scoring.PL2()), ("dfree", scoring.DFree())]:
    with ix.searcher(weighting=wm) as s:
        q = query.Term("a", u"xx")
        full = [(h.docnum, h.score) for h in s.search(q, limit=None)][:5]
        top = [(h.docnum, h.score) for h in s.search(q, limit=5)]
        m = q.matcher(s, s.context())
        viol = None
        while m.is_active():
            if m.block_quality() < m.score() or m.max_quality() < m.score():
                viol = (m.id(), m.score(), m.block_quality(), m.max_quality()); break
            m.next()
        print(name, "top5 equal:", top == full, "| bound violated at (doc, score, block_quality, max_quality):", viol)
        if top != full or viol: bad.append(name)
sys.exit(1 if bad else 0)
