# C13: a value outside the domain of an integer field must be rejected; non-integral numbers are silently truncated instead
# (3.7 is indexed as 3 and a query for 3.7 matches the document holding 3).
import sys
from whoosh import fields, query
from whoosh.filedb.filestore import RamStorage
ix = RamStorage().create_index(fields.Schema(k=fields.ID(stored=True), n=fields.NUMERIC(int, 32)))
w = ix.writer()
rc = 0
try:
    w.add_document(k=u"a", n=3.7)
    w.add_document(k=u"b", n=3)
    w.commit()
    with ix.searcher() as s:
        got = sorted(h["k"] for h in s.search(query.Term("n", 3), limit=None))
    print("n=3.7 accepted; Term(n, 3) matches", got)
    rc = 1
except ValueError as e:
    print("rejected:", e); w.cancel()
sys.exit(rc)
