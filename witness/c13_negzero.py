# C13 known finding: -0.0 and 0.0 are numerically equal but get different sortable codes,
# so the closed range [0.0, 1.0] does not match a document holding -0.0.
import sys
from whoosh import fields, query
from whoosh.filedb.filestore import RamStorage
ix = RamStorage().create_index(fields.Schema(f=fields.NUMERIC(float, stored=True)))
w = ix.writer(); w.add_document(f=-0.0); w.add_document(f=0.5); w.commit()
with ix.searcher() as s:
    hits = sorted(h["f"] for h in s.search(query.NumericRange("f", 0.0, 1.0), limit=None))
print("hits for [0.0, 1.0]:", hits, "(expected both -0.0 and 0.5: -0.0 == 0.0 lies inside the interval)")
sys.exit(1 if len(hits) != 2 else 0)
