# C14: collapse with a custom collapse_order under a limit: the top-N heap forgets a document it evicted; when the document
# that evicted it is later removed by the collapse (a better-ordered document of its group arrived), the forgotten document
# does not come back, so the limited result is not the prefix of the unlimited collapsed ranking.
import sys
from whoosh import fields, query, scoring
from whoosh.filedb.filestore import RamStorage
docs = [('y', 2, 4), ('x', 5, 1), ('x', 3, 2), ('y', 2, 2), ('y', 5, 3), ('x', 3, 4), ('y', 2, 4), ('z', 5, 1), ('x', 2, 2)]
ix = RamStorage().create_index(fields.Schema(k=fields.ID(stored=True), g=fields.ID(sortable=True), n=fields.NUMERIC(sortable=True), t=fields.TEXT))
w = ix.writer()
for i, (g, n, tf) in enumerate(docs):
    w.add_document(k=u"%d" % i, g=u"%s" % g, n=n, t=u" ".join([u"aa"] * tf))
w.commit()
with ix.searcher(weighting=scoring.Frequency()) as s:
    q = query.Term("t", u"aa")
    full = [int(h["k"]) for h in s.search(q, limit=None, collapse="g", collapse_limit=2, collapse_order="n")]
    lim = [int(h["k"]) for h in s.search(q, limit=3, collapse="g", collapse_limit=2, collapse_order="n")]
print("unlimited:", full, " limit=3:", lim)
sys.exit(1 if lim != full[:3] else 0)
