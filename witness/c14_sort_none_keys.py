# C14: sorting by a facet whose key function returns None for some documents (a stored field some documents lack) raises
# TypeError instead of ordering the documents.
import sys
from whoosh import fields, query, sorting
from whoosh.filedb.filestore import RamStorage
ix = RamStorage().create_index(fields.Schema(k=fields.ID(stored=True), p=fields.STORED))
w = ix.writer(); w.add_document(k=u"a", p=2); w.add_document(k=u"b"); w.add_document(k=u"c", p=1); w.commit()
with ix.searcher() as s:
    try:
        got = [h["k"] for h in s.search(query.Every(), sortedby=sorting.StoredFieldFacet("p"), limit=None)]
        print("sorted:", got); sys.exit(0)
    except TypeError as e:
        print("raised TypeError:", e); sys.exit(1)
