# C15/C01: And([...]) orders its sub-queries by estimate_size(); span queries other than SpanNear2 did not implement it, so
# searching And([SpanFirst(t), u]) raised NotImplementedError.
import sys
from whoosh import fields, query
from whoosh.query import spans
from whoosh.filedb.filestore import RamStorage
ix = RamStorage().create_index(fields.Schema(k=fields.ID(stored=True), t=fields.TEXT))
w = ix.writer(); w.add_document(k=u"0", t=u"alfa bravo"); w.add_document(k=u"1", t=u"bravo alfa"); w.commit()
T = lambda x: query.Term("t", x)
bad = 0
with ix.searcher() as s:
    for q, exp in ((query.And([spans.SpanFirst(T(u"alfa")), T(u"bravo")]), ["0"]),
                   (query.And([spans.SpanNear(T(u"alfa"), T(u"bravo")), T(u"bravo")]), ["0"]),
                   (query.And([spans.SpanOr([T(u"alfa"), T(u"charlie")]), T(u"bravo")]), ["0", "1"]),
                   (query.And([spans.SpanNot(T(u"alfa"), T(u"charlie")), T(u"bravo")]), ["0", "1"])):
        try:
            got = sorted(h["k"] for h in s.search(q, limit=None))
            est = q.estimate_size(s.reader())
        except Exception as e:
            got, est = "%s: %s" % (type(e).__name__, e), None
        if got != exp or est < len(exp):
            bad += 1
            print(q, "->", got, "estimate", est, "expected", exp)
sys.exit(1 if bad else 0)
