# C15: estimate_size()/estimate_min_size() must give bounds for every query; several query classes raise instead.
import sys
from whoosh import fields, query
from whoosh.query import spans
from whoosh.filedb.filestore import RamStorage
ix = RamStorage().create_index(fields.Schema(t=fields.TEXT))
w = ix.writer(); w.add_document(t=u"alfa bravo"); w.commit()
bad = 0
with ix.reader() as r:
    T = lambda x: query.Term("t", x)
    for q in (query.And([]), spans.SpanNear(T(u"alfa"), T(u"bravo")), spans.SpanFirst(T(u"alfa")), spans.SpanNot(T(u"alfa"), T(u"bravo")),
              spans.SpanOr([T(u"alfa"), T(u"bravo")])):
        for name in ("estimate_size", "estimate_min_size"):
            try:
                getattr(q, name)(r)
            except Exception as e:
                bad += 1
                print("%r.%s raised %s: %s" % (q, name, type(e).__name__, e))
sys.exit(1 if bad else 0)
