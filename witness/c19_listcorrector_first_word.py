# C19: ListCorrector never suggests the first word of its sorted list (the word-graph cursor starts past it).
import sys
from whoosh import spelling
words = [u"alfa", u"alfb", u"bravo"]
c = spelling.ListCorrector(words)
got = c.suggest(u"alfc", maxdist=1, limit=10)
print("suggest('alfc') over", words, "->", got)
sys.exit(1 if sorted(got) != [u"alfa", u"alfb"] else 0)
