# Regression demonstrations (exit 1 on the tree before the fix: commits) for the binary-matcher defects the
# contracts exposed.  Run: PYTHONPATH=<tree>/src /venv/bin/python witness/fixed_binary_matchers.py
import sys
from whoosh.matching import (ListMatcher, AndNotMatcher, AndMaybeMatcher, DisjunctionMaxMatcher,
                             IntersectionMatcher, UnionMatcher)
from whoosh import scoring
bad = []
class WS(scoring.BaseScorer):      # scorer: score = weight, one block per list
    def supports_block_quality(self): return True
    def score(self, m): return m.weight()
    def max_quality(self): return 100.0
    def block_quality(self, m): return m.block_max_weight()
def L(ids, ws): return ListMatcher(ids, ws, scorer=WS())
# 294d290 AndNot construction
m = AndNotMatcher(ListMatcher([5, 7]), ListMatcher([3, 5]))
if list(m.all_ids()) != [7]: bad.append("AndNot([5,7],[3,5]) -> %r" % list(AndNotMatcher(ListMatcher([5, 7]), ListMatcher([3, 5])).all_ids()))
# ea501b1 AndNot.skip_to past the end
try:
    m = AndNotMatcher(ListMatcher([1, 2]), ListMatcher([1, 5, 9])); m.skip_to(4)
    if m.is_active(): bad.append("AndNot.skip_to(4) still active")
except IndexError as e: bad.append("AndNot.skip_to raised %r" % e)
# 4e0eb08 AndMaybe.skip_to
m = AndMaybeMatcher(ListMatcher([1, 4], [1.0, 1.0]), ListMatcher([2, 4], [10.0, 10.0])); m.skip_to(2)
if m.score() != 11.0: bad.append("AndMaybe.skip_to(2) then score() = %r, expected 11.0" % m.score())
# 01bbccb DisMax.score
m = DisjunctionMaxMatcher(ListMatcher([5], [1.0]), ListMatcher([9], [7.0]))
if m.score() != 1.0: bad.append("DisMax score at doc 5 = %r, expected 1.0" % m.score())
# 6b82065 AndNot.skip_to_quality exhausting the positive child
try:
    m = AndNotMatcher(L([1, 2], [1.0, 1.0]), L([2, 9], [1.0, 1.0])); m.skip_to_quality(5.0)
    if m.is_active(): bad.append("AndNot.skip_to_quality(5) still active")
except IndexError as e: bad.append("AndNot.skip_to_quality raised %r" % e)
# 5d09c4c DisMax.replace: child a = Union of two weak disjoint lists (replaces to an inactive Intersection),
# child b keeps qualifying postings that must survive
a = UnionMatcher(L([1], [4.0]), L([2], [4.0]))
b = L([3, 8], [7.0, 9.0])
r = DisjunctionMaxMatcher(a, b).replace(6.5)
got = []
while r.is_active(): got.append((r.id(), r.score())); r.next()
if got != [(3, 7.0), (8, 9.0)]: bad.append("DisMax.replace(6.5) = %r, expected [(3, 7.0), (8, 9.0)]" % got)
# 2bf87ba DisMax.skip_to_quality stale id cache (needs a multi-block posting list)
from whoosh import fields, query
from whoosh.codec.whoosh3 import W3Codec
from whoosh.filedb.filestore import RamStorage
ix = RamStorage().create_index(fields.Schema(t=fields.TEXT))
w = ix.writer(codec=W3Codec(blocklimit=2))
for i in range(12):
    w.add_document(t=("aa " * (5 if i >= 8 else 1)) + ("bb " * (5 if i >= 10 else 1)))
w.commit()
with ix.searcher(weighting=scoring.Frequency()) as s:
    m = query.DisjunctionMax([query.Term("t", "aa"), query.Term("t", "bb")]).matcher(s, s.context())
    m.id()
    m.skip_to_quality(1.0)
    if m.is_active():
        real = min(x.id() for x in (m.a, m.b) if x.is_active())
        if m.id() != real: bad.append("DisMax.id() after skip_to_quality = %r but children are at %r" % (m.id(), real))
# Intersection.replace one-sided return
a = UnionMatcher(L([1], [4.0]), L([2], [4.0]))
r = IntersectionMatcher(a, L([1, 2, 3], [1.0, 1.0, 1.0])).replace(6.0)
got = []
while r.is_active(): got.append(r.id()); r.next()
if 3 in got: bad.append("Intersection.replace(6.0) yields doc 3 which is not in the intersection: %r" % got)
for b_ in bad: print("FAIL:", b_)
print("OK" if not bad else "%d defects reproduce" % len(bad))
sys.exit(1 if bad else 0)
