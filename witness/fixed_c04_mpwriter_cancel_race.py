# C04: cancel() of the multi-process writer (ix.writer(procs=N)) did not stop its sub-processes: SubWriterTask.cancel() set a
# flag on the parent's copy of the Process object, which the child never sees. A sub-process that was still starting up
# created its compound temp file inside <index>.tmp while the parent was destroying that directory: os.rmdir raised
# OSError (ENOTEMPTY) out of cancel() BEFORE the write lock was released, so the index stayed locked (and the child was
# left blocked on the job queue for ever). Seen once in ~240 runs on a loaded machine; the schedule is forced here by
# two delays (child: 0.3 s before it starts; parent: 1.5 s between emptying the temp directory and removing it).
# exit 1 = cancel() raised or the lock is still held; exit 0 = cancel() returned and a new writer can be opened.
import os
import shutil
import sys
import tempfile
import time

from whoosh import fields, index, multiproc
from whoosh.filedb import filestore
from whoosh.writing import LockError

PARENT = os.getpid()
_clean = filestore.FileStorage.clean
_run = multiproc.SubWriterTask.run


def slow_clean(self, *a, **kw):
    r = _clean(self, *a, **kw)
    if os.getpid() == PARENT and self.folder.endswith(".tmp"):
        time.sleep(1.5)
    return r


def late_run(self):
    time.sleep(0.3)
    return _run(self)


filestore.FileStorage.clean = slow_clean
multiproc.SubWriterTask.run = late_run

root = tempfile.mkdtemp(prefix="c04mp_")
code = 0
try:
    ix = index.create_in(root, fields.Schema(id=fields.ID(stored=True), body=fields.TEXT))
    w = ix.writer(procs=2, batchsize=2)
    for i in range(3):
        w.add_document(id=u"x%d" % i, body=u"zulu")
    try:
        w.cancel()
    except Exception as e:
        print("MpWriter.cancel() raised %s: %s" % (type(e).__name__, e))
        code = 1
    try:
        w2 = ix.writer(timeout=0.5)
        w2.cancel()
    except LockError:
        print("the index is still write-locked after cancel()")
        code = 1
    alive = [t.pid for t in w.tasks if t.is_alive()]
    if alive:
        print("sub-processes still alive after cancel():", alive)
        for t in w.tasks:
            t.terminate()
            t.join()
finally:
    shutil.rmtree(root, ignore_errors=True)
print("exit", code)
sys.exit(code)
