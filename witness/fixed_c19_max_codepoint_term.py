# C19: single-segment terms_within raises ValueError when the automaton backs up over a lexicon term containing U+10FFFF
# (DFA.find_next_edge computes chr(ord(label) + 1) beyond the last code point), while the multi-segment path answers.
import sys
from whoosh import fields
from whoosh.filedb.filestore import RamStorage
ix = RamStorage().create_index(fields.Schema(t=fields.KEYWORD))
w = ix.writer()
w.add_document(t=u"a\U0010ffffzz")
w.add_document(t=u"abc")
w.add_document(t=u"abd")
w.commit()
with ix.reader() as r:
    try:
        got = sorted(r.terms_within("t", u"abc", 1))
    except ValueError as e:
        print("terms_within('abc', 1) over a lexicon holding 'a\\U0010ffffzz' raised ValueError:", e)
        sys.exit(1)
print("terms_within ->", got)
sys.exit(0 if got == [u"abc", u"abd"] else 1)
