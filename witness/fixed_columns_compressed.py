"""C08: compressed column readers must return each row's own value (fixed in f7bb4da, 333e92e).  Exit 1 when wrong."""
import sys
from whoosh import columns, fields
from whoosh.filedb.filestore import RamStorage

bad = []
# 1. stored fields of a segment holding a document without stored values could not be iterated
ix = RamStorage().create_index(fields.Schema(a=fields.ID(stored=True), b=fields.ID))
w = ix.writer()
w.add_document(a=u"x"); w.add_document(b=u"y"); w.add_document(a=u"z")
w.commit()
with ix.reader() as r:
    try:
        got = list(r.all_stored_fields())
        print("all_stored_fields:", got)
    except Exception as e:
        bad.append("all_stored_fields raised %r" % (e,))

# 2. CompressedBlockColumn at a non-zero base offset, with gaps
def rt(col, rows, doccount, base):
    st = RamStorage(); f = st.create_file("c"); f.write(b"x" * base)
    w = col.writer(f)
    for d in sorted(rows): w.add(d, rows[d])
    w.finish(doccount); length = f.tell() - base; f.close()
    r = col.reader(st.open_file("c"), base, length, doccount)
    want = [rows.get(i, b"") for i in range(doccount)]
    try:
        got = [r[i] for i in range(doccount)]
        it = list(r)
    except Exception as e:
        return "raised %r" % (e,)
    if got != want or it != want:
        return "rows %r iter %r expected %r" % (got, it, want)
for col, rows, n, base in ((columns.CompressedBlockColumn(), {0: b"a", 2: b"c"}, 4, 5),
                           (columns.CompressedBlockColumn(), {}, 0, 0),
                           (columns.CompressedBytesColumn(), {1: b"b"}, 3, 5)):
    m = rt(col, rows, n, base)
    if m:
        bad.append("%s: %s" % (type(col).__name__, m))
for b in bad:
    print("WRONG:", b)
sys.exit(1 if bad else 0)
