import sys
from whoosh import fields, query
from whoosh.filedb.filestore import RamStorage
ix = RamStorage().create_index(fields.Schema(k=fields.ID(stored=True), t=fields.TEXT))
w = ix.writer()
for i in range(6): w.add_document(k=str(i), t="aa" if i == 2 else "bb")
w.commit()
w = ix.writer(); w.delete_by_term("k", "3"); w.commit(merge=False)
with ix.searcher() as s:
    got = sorted(h["k"] for h in s.search(query.Not(query.Term("t", "aa")), limit=None))
    print("Not(t:aa) with doc 3 deleted ->", got, "expected ['0', '1', '4', '5']")
    d = sorted(s.stored_fields(n)["k"] for n in query.Not(query.Term("t", "aa")).docs(s))
    print("docs():", d)
    sys.exit(1 if got != ['0','1','4','5'] else 0)
