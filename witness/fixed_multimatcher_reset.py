"""C11/C06 (fixed in ae1a2b8): reset() of a MultiMatcher whose first sub-matcher is empty must land on the first posting
of the union.  Exit 1 when wrong."""
import sys
from whoosh.matching import ListMatcher, MultiMatcher
m = MultiMatcher([ListMatcher([]), ListMatcher([1, 2])], [0, 10])
first = m.id()
m.next(); m.next()
m.reset()
try:
    ok = m.is_active() and m.id() == first == 11
    print("after reset: active", m.is_active(), "id", m.id())
except Exception as e:
    print("after reset: active", m.is_active(), "but id() raised", type(e).__name__)
    ok = False
sys.exit(0 if ok else 1)
