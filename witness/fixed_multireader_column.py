"""C06/C08 (fixed in 7759ccf): a column read through a multi-segment reader must give every document its own value, and
the default for documents without one, also when a whole segment has no value for the field.  Exit 1 when wrong."""
import sys
from whoosh import fields
from whoosh.filedb.filestore import RamStorage
ix = RamStorage().create_index(fields.Schema(k=fields.ID(stored=True), f=fields.TEXT(sortable=True)))
w = ix.writer(); w.add_document(k=u"a0", f=u"v1"); w.add_document(k=u"a1", f=u"v2"); w.commit()
w = ix.writer(); w.add_document(k=u"b0"); w.add_document(k=u"b1"); w.add_document(k=u"b2"); w.commit(merge=False)
w = ix.writer(); w.add_document(k=u"c0", f=u"v3"); w.commit(merge=False)
r = ix.reader()
cr = r.column_reader("f")
want = [u"v1", u"v2", u"", u"", u"", u"v3"]
got = []
for d in range(6):
    try:
        got.append(cr[d])
    except Exception as e:
        got.append(type(e).__name__)
it = list(cr)
print("by index:", got, "iterated:", it, "expected:", want)
sys.exit(1 if got != want or it != want else 0)
