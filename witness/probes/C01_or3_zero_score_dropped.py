from whoosh import fields, query, scoring
from whoosh.filedb.filestore import RamStorage
schema = fields.Schema(id=fields.STORED, t=fields.KEYWORD)
ix = RamStorage().create_index(schema)
w = ix.writer()
for i, text in enumerate(["b", "a", "c", "a b", "d", "a"]):
    w.add_document(id=i, t=text)
w.commit()
q = query.Or([query.Term("t", "a", boost=0.0), query.Term("t", "b"), query.Term("t", "c")])
with ix.searcher() as s:
    print("boost0 scored  ", sorted(h["id"] for h in s.search(q, limit=None)))
    print("boost0 unscored", sorted(h["id"] for h in s.search(q, limit=None, scored=False)))
    print("boost0 terms   ", sorted(h["id"] for h in s.search(q, limit=None, terms=True)))
q = query.Or([query.Term("t", "a"), query.Term("t", "b"), query.Term("t", "c")])
for W in (scoring.BM25F, scoring.TF_IDF, scoring.Frequency, scoring.DFree, scoring.PL2):
    with ix.searcher(weighting=W()) as s:
        try:
            a = sorted(h["id"] for h in s.search(q, limit=None))
            b = sorted(h["id"] for h in s.search(q, limit=None, terms=True))
            print(W.__name__, a, b, [round(h.score, 3) for h in s.search(q, limit=None, terms=True)])
        except Exception as e:
            print(W.__name__, "error", repr(e))
