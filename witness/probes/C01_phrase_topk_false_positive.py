from whoosh import fields, query
from whoosh.filedb.filestore import RamStorage
schema = fields.Schema(id=fields.STORED, t=fields.TEXT)
ix = RamStorage().create_index(schema)
w = ix.writer()
for i in range(600):
    if i < 40:      # real phrase matches, getting shorter (= better) each time
        text = "alpha beta" + " pad" * (40 - i)
    else:           # both words, never adjacent; long docs in odd 128-blocks
        n = 30 if (i // 128) % 2 else 3
        if i % 7 == 0:   # a few more real matches
            text = "fill " * n + "alpha beta"
        else:
            text = "alpha " + "fill " * n + "beta"
    w.add_document(id=i, t=text)
w.commit()
with ix.searcher() as s:
    q = query.Phrase("t", ["alpha", "beta"])
    truth = set(range(40)) | set(i for i in range(40, 600) if i % 7 == 0)
    print("limit=None correct:", set(h["id"] for h in s.search(q, limit=None)) == truth)
    for k in (5, 10, 20, 30, 50, 60):
        r = s.search(q, limit=k)
        print("limit=%d" % k, "len", len(r), len(truth), "false positives:", [h["id"] for h in r if h["id"] not in truth])
