from whoosh import fields, query, writing
from whoosh.filedb.filestore import RamStorage
schema = fields.Schema(id=fields.ID(stored=True), t=fields.KEYWORD)
ix = RamStorage().create_index(schema)
w = ix.writer()
for i in range(5):
    w.add_document(id=str(i), t="a")
w.commit()
s = ix.searcher()
print(sorted(h["id"] for h in s.search(query.Term("t", "a"), limit=None)))
w = ix.writer()
w.delete_by_term("id", "2")
w.commit(mergetype=writing.NO_MERGE)
s2 = s.refresh()
print("refresh:", sorted(h["id"] for h in s2.search(query.Term("t", "a"), limit=None)), s2.doc_count())
print("refresh every:", sorted(h["id"] for h in s2.search(query.Every(), limit=None)))
s3 = ix.searcher()
print("fresh:", sorted(h["id"] for h in s3.search(query.Term("t", "a"), limit=None)), s3.doc_count())
