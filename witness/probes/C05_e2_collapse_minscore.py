# Existing violation: with collapse=..., TopCollector.remove() raises minscore to the lowest score left in a
# heap that is not full yet, so block skipping / matcher pruning drops documents that belong in the top k.
import sys, warnings
warnings.simplefilter("ignore")
from whoosh import fields, query, scoring
from whoosh.filedb.filestore import RamStorage
ix = RamStorage().create_index(fields.Schema(id=fields.ID(stored=True), grp=fields.ID(sortable=True), body=fields.TEXT))
w = ix.writer()
rows = [("k0", 5), ("k1", 1), ("k1", 2)] + [("k%d" % i, 1 + i % 3) for i in range(3, 12)]
for i, (g, tf) in enumerate(rows):
    w.add_document(id=str(i), grp=g, body=" ".join(["aa"] * tf))
w.commit()
q = query.Term("body", "aa")
with ix.searcher(weighting=scoring.Frequency()) as s:
    full = [(h["id"], h.score) for h in s.search(q, limit=None, collapse="grp")]
    lim = [(h["id"], h.score) for h in s.search(q, limit=5, collapse="grp")]
print("exhaustive[:5]", full[:5]); print("limit=5       ", lim)
sys.exit(0 if lim == full[:5] else 1)
