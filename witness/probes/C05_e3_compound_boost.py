# Existing violation: a boost > 1 on a compound query. WrappingMatcher.replace() hands the collector's minscore to the
# child without dividing by the boost, so the un-boosted child prunes itself against a threshold that is boost times too high.
import sys, warnings
warnings.simplefilter("ignore")
from whoosh import fields, query, scoring
from whoosh.filedb.filestore import RamStorage
ix = RamStorage().create_index(fields.Schema(id=fields.ID(stored=True), body=fields.TEXT))
w = ix.writer()
for i in range(60):
    tfa = 1 + (i % 5 if i < 50 else 8)      # best 'aa' docs come late
    words = ["aa"] * tfa + (["bb"] if i % 2 == 0 else [])
    w.add_document(id=str(i), body=" ".join(words))
w.commit()
q = query.Or([query.Term("body", "aa"), query.Term("body", "bb")], boost=3.0)
rc = 0
for wf in (scoring.Frequency, scoring.TF_IDF, scoring.BM25F):
    with ix.searcher(weighting=wf()) as s:
        full = [(h["id"], round(h.score, 6)) for h in s.search(q, limit=None)]
        lim = [(h["id"], round(h.score, 6)) for h in s.search(q, limit=3)]
    print(wf.__name__, "exhaustive[:3]", full[:3], "limit=3", lim)
    rc |= lim != full[:3]
sys.exit(int(rc))
