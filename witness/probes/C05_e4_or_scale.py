# Existing violation: Or(..., scale=s) (coordination bonus). CoordMatcher is rebuilt by replace() and re-counts the
# terms of the *simplified* child, so a document's score depends on when the collector happened to call replace():
# limited searches (replace on every minscore change) and exhaustive ones (every 10 matches) score the same doc differently.
import sys, warnings
warnings.simplefilter("ignore")
from whoosh import fields, query, scoring
from whoosh.filedb.filestore import RamStorage
ix = RamStorage().create_index(fields.Schema(id=fields.ID(stored=True), body=fields.TEXT))
w = ix.writer()
w.add_document(id="0", body="aa")                 # the only 'aa' document; its matcher is exhausted afterwards
for i in range(1, 9):
    w.add_document(id=str(i), body=" ".join(["bb"] * i))
w.commit()
q = query.Or([query.Term("body", "aa"), query.Term("body", "bb")], scale=0.5)
with ix.searcher(weighting=scoring.Frequency()) as s:
    full = [(h["id"], h.score) for h in s.search(q, limit=None)]
    lim = [(h["id"], h.score) for h in s.search(q, limit=2)]
print("exhaustive[:2]", full[:2]); print("limit=2       ", lim)
sys.exit(0 if lim == full[:2] else 1)
