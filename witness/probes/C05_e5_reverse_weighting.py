# Existing violation: ReverseWeighting. Scores are negative, but TopCollector starts with minscore 0 and the reversed
# scorer reports block/max quality as -(upper bound), so limited searches skip everything / prune wrongly.
import sys, warnings
warnings.simplefilter("ignore")
from whoosh import fields, query, scoring
from whoosh.filedb.filestore import RamStorage
ix = RamStorage().create_index(fields.Schema(id=fields.ID(stored=True), body=fields.TEXT))
w = ix.writer()
for i in range(300):
    w.add_document(id=str(i), body=" ".join(["aa"] * (1 + (i * 7) % 9) + ["bb"] * (i % 3)))
w.commit()
rc = 0
for q in (query.Term("body", "aa"), query.Or([query.Term("body", "aa"), query.Term("body", "bb")])):
    for inner in (scoring.Frequency, scoring.TF_IDF, scoring.BM25F):
        with ix.searcher(weighting=scoring.ReverseWeighting(inner())) as s:
            full = [(h["id"], round(h.score, 6)) for h in s.search(q, limit=None)]
            lim = [(h["id"], round(h.score, 6)) for h in s.search(q, limit=3)]
        if lim != full[:3]:
            rc = 1
            print("Reverse(%s)" % inner.__name__, q, "exhaustive[:3]", full[:3], "limit=3", lim)
sys.exit(rc)
