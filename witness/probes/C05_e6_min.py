import sys, warnings
warnings.simplefilter("ignore")
from whoosh import fields, query, scoring
from whoosh.filedb.filestore import RamStorage
ix = RamStorage().create_index(fields.Schema(id=fields.ID(stored=True), body=fields.TEXT))
w = ix.writer()
for i in range(300):
    w.add_document(id=str(i), body=" ".join(["aa"] * (1 + i % 5) + ["pad"] * ((i * 7) % 40)))
w.commit()
rc = 0
for wf in (scoring.DFree, scoring.PL2):
    with ix.searcher(weighting=wf()) as s:
        full = [(h["id"], round(h.score, 4)) for h in s.search(query.Term("body", "aa"), limit=None)]
        lim = [(h["id"], round(h.score, 4)) for h in s.search(query.Term("body", "aa"), limit=3)]
    print(wf.__name__, "exhaustive[:3]", full[:3], "limit=3", lim)
    rc |= lim != full[:3]
sys.exit(int(rc))
