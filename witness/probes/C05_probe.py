import random, sys, time
from whoosh import fields, scoring, query, sorting
from whoosh.filedb.filestore import RamStorage

seed = int(sys.argv[1]) if len(sys.argv) > 1 else 1
NQ = int(sys.argv[2]) if len(sys.argv) > 2 else 150
rnd = random.Random(seed)
BIGBOOST = "--bigboost" in sys.argv

VOC = ["w%d" % i for i in range(12)]
PROB = [0.9, 0.7, 0.5, 0.35, 0.25, 0.15, 0.1, 0.06, 0.04, 0.02, 0.01, 0.005]

schema = fields.Schema(id=fields.ID(stored=True), body=fields.TEXT(phrase=True),
                       title=fields.TEXT(phrase=True),
                       num=fields.NUMERIC(sortable=True),
                       grp=fields.ID(sortable=True))


def mkdoc(i):
    def text():
        ws = []
        for w, p in zip(VOC, PROB):
            if rnd.random() < p:
                ws.extend([w] * rnd.choice([1, 1, 1, 2, 3, 5, 9]))
        ws.extend(["pad"] * rnd.choice([0, 0, 1, 5, 20, 60]))
        rnd.shuffle(ws)
        return " ".join(ws)
    return dict(id=str(i), body=text(), title=text(), num=rnd.randrange(100),
                grp=rnd.choice(["", "a", "b", "c", "d", "e", "f", "g"]))


def build(segsizes, ndel):
    st = RamStorage()
    ix = st.create_index(schema)
    n = 0
    for sz in segsizes:
        w = ix.writer()
        for _ in range(sz):
            w.add_document(**mkdoc(n))
            n += 1
        w.commit(merge=False)
    if ndel:
        w = ix.writer()
        for i in rnd.sample(range(n), ndel):
            w.delete_by_term("id", str(i))
        w.commit(merge=False)
    return ix


def rterm():
    f = rnd.choice(["body", "title"])
    b = rnd.choice([1.0, 1.0, 1.0, 2.5, 0.3] if BIGBOOST else [1.0, 1.0, 0.3])
    return query.Term(f, rnd.choice(VOC), boost=b)


def rquery(depth=0):
    r = rnd.random()
    if depth >= 3 or r < 0.3:
        return rterm()
    kind = rnd.choice(["or", "or", "or3", "and", "andnot", "andmaybe", "dismax",
                       "range", "phrase", "require", "not", "boostor"] + (["orscale"] if "--scale" in sys.argv else []))
    sub = lambda: rquery(depth + 1)
    if kind == "or":
        return query.Or([sub(), sub()])
    if kind == "or3":
        return query.Or([sub() for _ in range(rnd.choice([3, 4, 5]))])
    if kind == "boostor":
        return query.Or([sub() for _ in range(rnd.choice([2, 3]))], boost=rnd.choice([0.4, 3.0] if BIGBOOST else [0.4]))
    if kind == "orscale":
        return query.Or([sub(), sub(), sub()], scale=0.5)
    if kind == "and":
        return query.And([sub(), sub()], boost=rnd.choice([1.0, 1.0, 2.0] if BIGBOOST else [1.0, 0.5]))
    if kind == "andnot":
        return query.AndNot(sub(), sub())
    if kind == "not":
        return query.And([sub(), query.Not(sub())])
    if kind == "andmaybe":
        return query.AndMaybe(sub(), sub())
    if kind == "require":
        return query.Require(sub(), sub())
    if kind == "dismax":
        return query.DisjunctionMax([sub(), sub()], tiebreak=rnd.choice([0.0, 0.3]))
    if kind == "range":
        lo = rnd.randrange(90)
        return query.Or([query.NumericRange("num", lo, lo + rnd.randrange(30), boost=rnd.choice([1.0, 2.0] if BIGBOOST else [1.0, 0.5])), sub()])
    if kind == "phrase":
        a, b = rnd.sample(VOC[:5], 2)
        return query.Phrase(rnd.choice(["body", "title"]), [a, b], slop=rnd.choice([1, 3]))


WEIGHTS = [lambda: scoring.BM25F(), lambda: scoring.BM25F(B=0.2, K1=2.0),
           lambda: scoring.BM25F(B=1.0, K1=0.5, title_B=0.0),
           lambda: scoring.TF_IDF(), lambda: scoring.Frequency()]
if "--all" in sys.argv:
    WEIGHTS += [lambda: scoring.DFree(), lambda: scoring.PL2()]


import signal
class Hang(Exception):
    pass
def _alarm(*a):
    raise Hang("search did not finish in 10s")
signal.signal(signal.SIGALRM, _alarm)


def check(ix, q, wf, k, **kw):
    signal.alarm(10)
    try:
        return _check(ix, q, wf, k, **kw)
    finally:
        signal.alarm(0)


def _check(ix, q, wf, k, **kw):
    with ix.searcher(weighting=wf()) as s:
        full = [(h.docnum, h.score) for h in s.search(q, limit=None, **kw)]
        lim = [(h.docnum, h.score) for h in s.search(q, limit=k, **kw)]
    exp = full[:k]
    if lim != exp:
        return (exp, lim)
    return None


def main():
    t = time.time()
    layouts = [([700], 0), ([400, 300, 150], 60), ([3000], 100)]
    nfail = 0
    for segs, ndel in layouts:
        ix = build(segs, ndel)
        for qi in range(NQ):
            q = rquery()
            wf = rnd.choice(WEIGHTS)
            k = rnd.choice([1, 2, 3, 5, 10, 25])
            mode = rnd.choice(["plain", "plain", "filter", "mask", "terms"] + ([] if "--nocollapse" in sys.argv else ["collapse"]))
            kw = {}
            if mode == "filter":
                kw["filter"] = query.NumericRange("num", 10, 70)
            elif mode == "mask":
                kw["mask"] = query.NumericRange("num", 30, 50)
            elif mode == "collapse":
                kw["collapse"] = "grp"
                kw["collapse_limit"] = rnd.choice([1, 2])
            elif mode == "terms":
                kw["terms"] = True
            try:
                r = check(ix, q, wf, k, **kw)
            except Exception as e:
                print("EXC", segs, wf().__class__.__name__, k, mode, q, repr(e))
                nfail += 1
                continue
            if r:
                nfail += 1
                exp, lim = r
                d = [i for i in range(max(len(exp), len(lim))) if i >= len(exp) or i >= len(lim) or exp[i] != lim[i]][0]
                print("FAIL", segs, wf().__class__.__name__, vars(wf()), "k=%d" % k, mode, kw.get("collapse_limit"), q)
                print("    first diff at", d, "exp", exp[d:d + 2], "got", lim[d:d + 2])
    print("failures:", nfail, "time %.1f" % (time.time() - t))
    return nfail


if __name__ == "__main__":
    sys.exit(1 if main() else 0)
