from whoosh import fields, query
from whoosh.filedb.filestore import RamStorage
from whoosh.writing import BufferedWriter

print("--- 1. field_length / avg length / BM25F score depend on layout (length byte rounding re-summed on merge)")
schema = fields.Schema(id=fields.ID(stored=True), t=fields.TEXT)
docs = [(u"a", u"xx " * 11), (u"b", u"xx yy"), (u"c", u"yy " * 15)]
ix1 = RamStorage().create_index(schema)
with ix1.writer() as w:
    for i, t in docs: w.add_document(id=i, t=t)
ix2 = RamStorage().create_index(schema)
for i, t in docs:
    w = ix2.writer(); w.add_document(id=i, t=t); w.commit(merge=False)
ix2.optimize()
for name, ix in (("single", ix1), ("merged", ix2)):
    with ix.searcher() as s:
        print(name, "field_length", s.reader().field_length("t"), "scores", [(h["id"], round(h.score, 6)) for h in s.search(query.Term("t", "xx"))])

print("--- 2. doc_field_length None vs 0")
schema = fields.Schema(id=fields.ID(stored=True), t=fields.TEXT, k=fields.KEYWORD(scorable=True))
ix1 = RamStorage().create_index(schema)
with ix1.writer() as w:
    w.add_document(id=u"a", t=u"x"); w.add_document(id=u"b", t=u"x", k=u"q")
ix2 = RamStorage().create_index(schema)
w = ix2.writer(); w.add_document(id=u"a", t=u"x"); w.commit(merge=False)
w = ix2.writer(); w.add_document(id=u"b", t=u"x", k=u"q"); w.commit(merge=False)
for name, ix in (("single", ix1), ("two-seg", ix2)):
    with ix.reader() as r:
        print(name, "doc_field_length(0,'k') =", r.doc_field_length(0, "k"))

print("--- 3. BufferedWriter loses column values")
schema = fields.Schema(id=fields.ID(stored=True), n=fields.NUMERIC(sortable=True))
ix = RamStorage().create_index(schema)
bw = BufferedWriter(ix, period=None, limit=10)
for i in range(3): bw.add_document(id=u"%d" % i, n=i + 1)
bw.close()
with ix.reader() as r:
    print("column n:", list(r.column_reader("n")), "expected [1, 2, 3]")

print("--- 4. searcher.refresh() after delete / optimize")
schema = fields.Schema(id=fields.ID(stored=True, unique=True), t=fields.TEXT)
ix = RamStorage().create_index(schema)
for i in range(3):
    w = ix.writer(); w.add_document(id=u"%d" % i, t=u"hello"); w.commit(merge=False)
s = ix.searcher()
w = ix.writer(); w.delete_by_term("id", u"1"); w.commit(merge=False)
s = s.refresh()
print("after delete+refresh:", sorted(h["id"] for h in s.search(query.Term("t", "hello"), limit=None)), "expected ['0','2']")
ix.optimize()
s = s.refresh()
print("after optimize+refresh:", sorted(h["id"] for h in s.search(query.Term("t", "hello"), limit=None)), "expected ['0','2']")

print("--- 5. SerialMpWriter with fewer docs than procs")
from whoosh.multiproc import SerialMpWriter
ix = RamStorage().create_index(schema)
w = SerialMpWriter(ix, procs=2)
w.add_document(id=u"a", t=u"x")
try:
    w.commit(); print("ok")
except Exception as e:
    print("raised", type(e).__name__, e)
