import random, sys
sys.path.insert(0, "/tmp/mutout3_C06/scratch")
from harness import *

def build_ref(ops, codec=None):
    st = RamStorage()
    ix = st.create_index(make_schema())
    w = ix.writer(codec=codec) if codec else ix.writer()
    live = {}
    for op in ops:
        if op[0] == "del": live.pop(op[1], None)
        else:
            live.pop(op[1]["id"], None)
            live[op[1]["id"]] = op[1]
    for d in live.values(): w.add_document(**d)
    w.commit(optimize=True)
    return ix

def build_var(rng, ops, final_opt, codec=None):
    st = RamStorage()
    ix = st.create_index(make_schema())
    i = 0
    desc = []
    while i < len(ops):
        n = rng.randint(1, 12)
        w = ix.writer(codec=codec) if codec else ix.writer()
        seen = set()
        k = 0
        for op in ops[i:i+n]:
            oid = op[1] if op[0] == "del" else op[1]["id"]
            if op[0] != "add" and oid in seen: break
            seen.add(oid)
            apply(w, op); k += 1
        n = k
        i += n
        c = rng.choice(["nomerge", "default", "opt"])
        desc.append((n, c))
        if c == "nomerge": w.commit(merge=False)
        elif c == "default": w.commit()
        else: w.commit(optimize=True)
    if final_opt:
        ix.optimize()
    return ix, desc

bad = 0
for seed in range(int(sys.argv[1]), int(sys.argv[2])):
    rng = random.Random(seed)
    nodel = seed % 2 == 0
    ops = gen_ops(rng, n=rng.randint(5, 80), p_del=0 if nodel else 0.1, p_upd=0 if nodel else 0.15)
    codec = W3Codec(blocklimit=rng.choice([1, 2, 3, 128])) if seed % 3 == 0 else None
    ref = dump(build_ref(ops))
    final_opt = rng.random() < 0.5
    ix, desc = build_var(rng, ops, final_opt, codec)
    stats = nodel or final_opt
    var = dump(ix, stats=stats)
    if not stats:
        ref = dump(build_ref(ops), stats=False)
    d = diff(ref, var)
    if d:
        bad += 1
        print("seed", seed, "nodel", nodel, "final_opt", final_opt, desc)
        for x in d[:6]: print("   ", x)
print("bad", bad)
