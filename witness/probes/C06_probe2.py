import random, sys
sys.path.insert(0, "/tmp/mutout3_C06/scratch")
from harness import *
from whoosh.writing import BufferedWriter
from whoosh.multiproc import MpWriter, SerialMpWriter
import tempfile, shutil

def final_docs(ops):
    live = {}
    for op in ops:
        if op[0] == "del": live.pop(op[1], None)
        else:
            live.pop(op[1]["id"], None)
            live[op[1]["id"]] = op[1]
    return list(live.values())

def build_ref(ops):
    st = RamStorage()
    ix = st.create_index(make_schema())
    w = ix.writer()
    for d in final_docs(ops): w.add_document(**d)
    w.commit(optimize=True)
    return ix

def build_buffered(rng, ops, d):
    ix = index.create_in(d, make_schema())
    bw = BufferedWriter(ix, period=None, limit=rng.randint(2, 9))
    for op in ops:
        apply(bw, op)
    bw.close()
    return ix

def build_mp(rng, ops, d, cls):
    ix = index.create_in(d, make_schema())
    i = 0
    while i < len(ops):
        n = rng.randint(5, 30)
        w = cls(ix, procs=rng.randint(2, 3), batchsize=rng.randint(1, 5))
        seen = set(); k = 0
        for op in ops[i:i+n]:
            oid = op[1] if op[0] == "del" else op[1]["id"]
            if op[0] != "add" and oid in seen: break
            seen.add(oid); apply(w, op); k += 1
        i += k
        c = rng.choice(["nomerge", "default", "opt"])
        if c == "nomerge": w.commit(merge=False)
        elif c == "default": w.commit()
        else: w.commit(optimize=True)
    return ix

bad = 0
mode = sys.argv[3]
for seed in range(int(sys.argv[1]), int(sys.argv[2])):
    rng = random.Random(seed)
    nodel = seed % 2 == 0
    ops = gen_ops(rng, n=rng.randint(5, 60), p_del=0 if nodel else 0.1, p_upd=0 if nodel else 0.15)
    d = tempfile.mkdtemp()
    try:
        if mode == "buf": ix = build_buffered(rng, ops, d)
        elif mode == "mp": ix = build_mp(rng, ops, d, MpWriter)
        else: ix = build_mp(rng, ops, d, SerialMpWriter)
        ref = dump(build_ref(ops), stats=nodel)
        var = dump(ix, stats=nodel)
        ix.close()
    finally:
        shutil.rmtree(d)
    df = [x for x in diff(ref, var) if "col_" not in x]
    if df:
        bad += 1
        print("seed", seed, "nodel", nodel)
        for x in df[:6]: print("   ", x)
print("bad", bad)
