from whoosh import fields, query
from whoosh.filedb.filestore import RamStorage
schema = fields.Schema(id=fields.ID(stored=True, unique=True), t=fields.TEXT(stored=True))
ix = RamStorage().create_index(schema)
for i in range(3):
    w = ix.writer(); w.add_document(id=u"%d" % i, t=u"hello"); w.commit(merge=False)
s = ix.searcher()
print("before", sorted(h["id"] for h in s.search(query.Term("t", "hello"), limit=None)))
w = ix.writer(); w.delete_by_term("id", u"1"); w.commit(merge=False)
s = s.refresh()
print("after delete+refresh", sorted(h["id"] for h in s.search(query.Term("t", "hello"), limit=None)), s.doc_count())
ix.optimize()
s = s.refresh()
print("after optimize+refresh", sorted(h["id"] for h in s.search(query.Term("t", "hello"), limit=None)), s.doc_count(), s.reader().segments() if hasattr(s.reader(), "segments") else None)
with ix.searcher() as s2:
    print("fresh", sorted(h["id"] for h in s2.search(query.Term("t", "hello"), limit=None)), s2.doc_count())
