from whoosh import fields, query, matching
from whoosh.compat import u
from whoosh.filedb.filestore import RamStorage
from whoosh.query import spans as sp
from whoosh.matching import ListMatcher

schema = fields.Schema(t=fields.TEXT)
ix = RamStorage().create_index(schema)
w = ix.writer()
for text in ["bravo alfa", "alfa bravo", "alfa charlie", "alfa bravo charlie", "echo", "echo alfa"]:
    w.add_document(t=u(text))
w.commit()
T = lambda x: query.Term("t", u(x))
with ix.searcher() as s:
    # 1. span matcher reset
    q = sp.SpanNear(T("alfa"), T("bravo"), slop=1)
    m = q.matcher(s, s.context())
    first = (m.id(), m.spans())
    m.next()
    m.reset()
    print("1. span reset: fresh", first, "after next+reset", (m.id(), m.spans()))

    # 2. CoordMatcher replace
    q = query.Or([T("alfa"), T("echo")], scale=0.5)
    m = q.matcher(s, s.context())
    ref = {}
    while m.is_active():
        ref[m.id()] = m.score(); m.next()
    m = q.matcher(s, s.context())
    m.skip_to(5)
    a = m.score()
    # echo exhausted? no: doc5 has both. go to a place where one child is exhausted
    q = query.Or([T("alfa"), T("charlie")], scale=0.5)
    m = q.matcher(s, s.context())
    ref = {}
    while m.is_active():
        ref[m.id()] = m.score(); m.next()
    m = q.matcher(s, s.context())
    m.skip_to(5)
    before = m.score()
    m2 = m.replace(0)
    print("2. coord replace: doc 5 score by stepping", ref[5], "before replace", before, "after replace(0)", m2.score(), type(m2).__name__)

    # 3. dismax skip_to_quality(0) after one child exhausted
    q = query.DisjunctionMax([T("alfa"), T("charlie")])
    m = q.matcher(s, s.context())
    m.skip_to(5)
    try:
        m.skip_to_quality(0)
        print("3. dismax skip_to_quality ok", m.id())
    except Exception as e:
        print("3. dismax skip_to_quality(0) at id 5 raised", repr(e))

    # 4. andmaybe weight with exhausted optional
    q = query.AndMaybe(T("alfa"), T("charlie"))
    m = q.matcher(s, s.context())
    m.skip_to(5)
    try:
        print("4. andmaybe weight", m.weight())
    except Exception as e:
        print("4. andmaybe weight() at id 5 raised", repr(e), "; score() =", m.score())

# 6. ListMatcher.copy drops term
lm = ListMatcher([1, 2, 3], term=("t", b"x"))
print("6. ListMatcher term", lm.term(), "copy term", lm.copy().term())
