from whoosh import fields, query
from whoosh.compat import u
from whoosh.filedb.filestore import RamStorage
schema = fields.Schema(t=fields.TEXT)
ix = RamStorage().create_index(schema)
for seg in range(2):
    w = ix.writer()
    for text in ["alfa echo", "alfa delta", "alfa delta echo", "alfa", "alfa"]:
        w.add_document(t=u(text))
    w.commit(merge=False)
T = lambda x: query.Term("t", u(x))
with ix.searcher() as s:
    for q in (query.DisjunctionMax([T("alfa"), T("delta"), T("echo")]), query.AndMaybe(T("alfa"), T("delta"))):
        m = q.matcher(s, s.context())
        m.skip_to(9)
        print(q, type(m).__name__, "at", m.id(), "score", m.score())
        for name in ("weight", "skip_to_quality"):
            try:
                print("  ", name, getattr(m, name)(*([0] if name == "skip_to_quality" else [])))
            except Exception as e:
                print("  ", name, "raised", repr(e))
