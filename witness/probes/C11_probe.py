import random, sys, traceback
from whoosh import fields, query, scoring
from whoosh.filedb.filestore import RamStorage
from whoosh.query import spans as sp
from whoosh.compat import u

rnd = random.Random(int(sys.argv[1]) if len(sys.argv) > 1 else 0)
words = u("alfa bravo charlie delta echo foxtrot golf hotel india").split()

schema = fields.Schema(id=fields.ID(stored=True),
                       t=fields.TEXT(stored=True, phrase=True),
                       k=fields.KEYWORD)
st = RamStorage()
ix = st.create_index(schema)
n = 0
for seg in range(3):
    w = ix.writer()
    for i in range(rnd.randint(20, 60)):
        ws = [rnd.choice(words[:rnd.randint(2, len(words))]) for _ in range(rnd.randint(1, 6))]
        w.add_document(id=u(str(n)), t=u(" ").join(ws), k=u(rnd.choice(words[:3])))
        n += 1
    w.commit(merge=False)
w = ix.writer()
for i in range(0, n, 7):
    w.delete_by_term("id", u(str(i)))
w.commit(merge=False)

T = lambda x: query.Term("t", u(x))


def queries():
    qs = [T("alfa"), T("hotel"), T("india"),
          query.Or([T("alfa"), T("golf")]),
          query.Or([T("alfa"), T("golf"), T("echo")]),
          query.And([T("alfa"), T("bravo")]),
          query.And([T("alfa"), T("bravo"), T("charlie")]),
          query.AndNot(T("alfa"), T("bravo")),
          query.AndMaybe(T("alfa"), T("echo")),
          query.Require(T("alfa"), T("echo")),
          query.DisjunctionMax([T("alfa"), T("echo"), query.Term("k", u("alfa"))]),
          query.Not(T("alfa")),
          query.And([T("bravo"), query.Not(T("alfa"))]),
          query.Every(), query.Every("t"),
          query.Prefix("t", u("c")), query.Wildcard("t", u("*o*")),
          query.TermRange("t", u("b"), u("e")),
          query.ConstantScoreQuery(T("alfa"), 2.0),
          query.Phrase("t", [u("alfa"), u("bravo")]),
          query.Phrase("t", [u("alfa"), u("bravo")], slop=2),
          sp.SpanNear(T("alfa"), T("bravo"), slop=2),
          sp.SpanNear(T("alfa"), T("bravo"), slop=3, ordered=False),
          sp.SpanFirst(T("alfa"), 1),
          sp.SpanOr([T("alfa"), T("echo")]),
          sp.SpanNot(T("alfa"), T("bravo")),
          sp.SpanContains(sp.SpanNear(T("alfa"), T("charlie"), slop=3), T("bravo")),
          sp.SpanBefore(T("alfa"), T("bravo")),
          sp.SpanNear2([T("alfa"), T("bravo"), T("charlie")], slop=3),
          query.Or([T("alfa"), T("golf")], scale=0.5),
          query.Or([query.And([T("alfa"), T("bravo")]), query.AndNot(T("echo"), T("alfa"))]),
          ]
    o = query.Or([T("alfa"), T("golf"), T("echo")])
    o.matcher_type = query.Or.ARRAY_MATCHER
    qs.append(o)
    return qs


def read(m, full=True):
    out = [m.id()]
    try:
        out.append(round(m.score(), 9))
    except Exception as e:
        out.append("score!" + type(e).__name__)
    if full:
        for name in ("weight", "value", "spans"):
            try:
                v = getattr(m, name)()
                if isinstance(v, float):
                    v = round(v, 9)
                out.append(repr(v))
            except Exception as e:
                out.append(name + "!" + type(e).__name__)
        try:
            out.append(sorted(m.matching_terms()))
        except Exception as e:
            out.append("mt!" + type(e).__name__)
    return out


def same(a, b):
    if a[:2] != b[:2]:
        return False
    for x, y in zip(a[2:], b[2:]):
        if isinstance(x, str) and "!" in x: continue
        if isinstance(y, str) and "!" in y: continue
        if x != y:
            return False
    return True


def reference(mk):
    m = mk()
    ref = []
    while m.is_active():
        ref.append(read(m))
        m.next()
    return ref


def run(name, mk):
    problems = []
    ref = reference(mk)
    ids = [r[0] for r in ref]
    if any(b <= a for a, b in zip(ids, ids[1:])):
        problems.append("ids not increasing %r" % ids)
    try:
        ai = list(mk().all_ids())
        if ai != ids:
            problems.append("all_ids %r != %r" % (ai, ids))
    except Exception as e:
        problems.append("all_ids raised %r" % e)
    maxid = (ids[-1] if ids else 0) + 3
    for trial in range(40):
        m = mk()
        pos = 0
        prog = []
        others = []  # (matcher, pos)
        replaced = False
        try:
            for step in range(rnd.randint(1, 12)):
                active = m.is_active()
                if active != (pos < len(ref)):
                    problems.append("%r active=%r expected pos %d/%d" % (prog, active, pos, len(ref)))
                    break
                if active:
                    got = read(m)
                    if not same(got, ref[pos]):
                        problems.append("%r read %r expected %r" % (prog, got, ref[pos]))
                        break
                op = rnd.choice(["next", "skip", "skip", "skipq", "replace", "copy", "reset", "skipback"])
                if not active and op not in ("reset", "copy"):
                    op = "reset"
                if op == "reset" and (replaced or isinstance(m, sp.SpanWrappingMatcher)):
                    break
                if op == "replace":
                    replaced = True
                if op == "next":
                    prog.append("next"); m.next(); pos += 1
                elif op == "skip":
                    t = rnd.randint(0, maxid)
                    prog.append("skip_to(%d)" % t); m.skip_to(t)
                    while pos < len(ref) and ref[pos][0] < t:
                        pos += 1
                elif op == "skipback":
                    t = rnd.randint(0, ids[pos])
                    prog.append("skip_to(%d)" % t); m.skip_to(t)
                elif op == "skipq":
                    if m.supports_block_quality():
                        prog.append("skip_to_quality(0)")
                        try:
                            m.skip_to_quality(0)
                        except NotImplementedError:
                            prog.pop(); break
                elif op == "replace":
                    prog.append("replace"); m = m.replace(0)
                elif op == "copy":
                    prog.append("copy")
                    try:
                        c = m.copy()
                    except NotImplementedError:
                        prog.pop(); continue
                    if rnd.random() < 0.5:
                        others.append((m, pos, list(prog)))
                        m = c
                    else:
                        others.append((c, pos, list(prog) + ["(copy)"]))
                elif op == "reset":
                    prog.append("reset")
                    try:
                        m.reset(); pos = 0
                    except NotImplementedError:
                        prog.pop(); break
            else:
                others.append((m, pos, prog))
                for om, opos, oprog in others:
                    rest = []
                    while om.is_active():
                        rest.append(read(om)); om.next()
                    if len(rest) != len(ref[opos:]) or not all(same(a, b) for a, b in zip(rest, ref[opos:])):
                        problems.append("%r remaining differs: got ids %r expected %r" % (oprog, [r[:2] for r in rest][:8], [r[:2] for r in ref[opos:]][:8]))
        except Exception as e:
            problems.append("%r raised %s" % (prog, traceback.format_exc().splitlines()[-1]))
    return problems


with ix.searcher() as s:
    ctxs = [("default", s.context()), ("nocur", s.context(needs_current=False))]
    targets = [("top", s)] + [("sub%d" % i, ss) for i, (ss, off) in enumerate(s.subsearchers)]
    for q in queries():
        for tn, srch in targets:
            for cn, ctx in ctxs:
                mk = lambda: q.matcher(srch, ctx)
                try:
                    ps = run("%r" % q, mk)
                except Exception:
                    ps = ["harness: " + traceback.format_exc().splitlines()[-1]]
                if ps:
                    print("==", q, tn, cn, type(mk()).__name__, len(ps))
                    seen = set()
                    for p in ps[:int(sys.argv[2]) if len(sys.argv) > 2 else 1]:
                        print("    ", p[:400])
