from whoosh import fields, query, scoring
from whoosh.filedb.filestore import RamStorage
from whoosh.codec.whoosh3 import W3Codec
T = query.Term

def mkix(docs, blocklimit=128):
    ix = RamStorage().create_index(fields.Schema(t=fields.TEXT))
    w = ix.writer(codec=W3Codec(blocklimit=blocklimit))
    for d in docs: w.add_document(t=d)
    w.commit()
    return ix

# 1 ReverseWeighting
ix = mkix(["aa zz zz zz", "aa aa aa", "aa zz"])
with ix.searcher(weighting=scoring.ReverseWeighting(scoring.Frequency())) as s:
    m = T("t", "aa").matcher(s, s.context())
    print("1 Reverse: supports", m.supports_block_quality(), "score", m.score(), "block_quality", m.block_quality(), "max_quality", m.max_quality())
    print("   limit=1:", [(h.docnum, h.score) for h in s.search(T("t","aa"), limit=1)], "full:", [(h.docnum, h.score) for h in s.search(T("t","aa"), limit=None)])

# 2 PL2
ix = mkix(["aa " + "zz " * 3, "aa aa aa " + "zz " * 40, "aa zz"])
with ix.searcher(weighting=scoring.PL2()) as s:
    m = T("t", "aa").matcher(s, s.context())
    sc = []
    bq = m.block_quality(); mq = m.max_quality()
    while m.is_active():
        sc.append((m.id(), m.score())); m.next()
    print("2 PL2: scores", sc, "block_quality", bq, "max_quality", mq)

# 3 DFree
with ix.searcher(weighting=scoring.DFree()) as s:
    m = T("t", "aa").matcher(s, s.context())
    sc = []
    bq = m.block_quality(); mq = m.max_quality()
    while m.is_active():
        sc.append((m.id(), m.score())); m.next()
    print("3 DFree: scores", sc, "block_quality", bq, "max_quality", mq)
