from whoosh import fields, query, scoring
from whoosh.filedb.filestore import RamStorage
from whoosh.codec.whoosh3 import W3Codec
T = query.Term
ix = RamStorage().create_index(fields.Schema(t=fields.TEXT))
w = ix.writer(codec=W3Codec(blocklimit=2))
for d in ["aa bb bb bb", "bb", "bb", "aa aa " + "bb " * 9, "aa bb", "aa bb"]:
    w.add_document(t=d)
w.commit()
def walk(m):
    out = []
    while m.is_active():
        out.append((m.id(), m.score())); m.next()
    return out
with ix.searcher(weighting=scoring.Frequency()) as s:
    for q in (query.And([T("t","aa"), T("t","bb")]), query.Or([T("t","aa"), T("t","bb")]), query.AndMaybe(T("t","aa"), T("t","bb"))):
        print(q, "all:", walk(q.matcher(s, s.context())))
        m = q.matcher(s, s.context())
        print("   block_quality", m.block_quality())
        m.skip_to_quality(6)
        print("   after skip_to_quality(6):", walk(m))
