from whoosh import fields, query, scoring
from whoosh.filedb.filestore import RamStorage
T = query.Term
ix = RamStorage().create_index(fields.Schema(t=fields.TEXT, u=fields.TEXT))
for docs in (["aa bb", "aa aa"], ["aa", "bb aa aa aa"]):
    w = ix.writer()
    for d in docs: w.add_document(t=d, u=d)
    w.commit(merge=False)
with ix.searcher(weighting=scoring.Frequency()) as s:
    m = T("t", "aa").matcher(s, s.context())
    print(type(m).__name__, "supports_block_quality:", m.supports_block_quality())
    try:
        m.skip_to_quality(1.0)
    except Exception as e:
        print("skip_to_quality raised", repr(e))
    try:
        m = query.DisjunctionMax([T("t", "aa"), T("u", "bb")]).matcher(s, s.context())
        while m.is_active():
            m.block_quality(); m.next()
    except Exception as e:
        print("dismax over MultiMatcher walk raised", repr(e))
